(* Executable model of nbhttp/websocket/conn.go (receiver: Parse / nextFrame / validFrame / readAll /
   handleWsMessage with the default ping, pong and close handlers of upgrader.go; sender: WriteMessage /
   writeFrame).  NO proofs in this file (it is extracted and run against the implementation).

   What is an oracle input (not computed by the model):
     - the mask keys the implementation drew (math/rand), one per frame written by a client-role endpoint;
     - what the decompressor's Read calls returned for every compressed message (bytes + nil / io.EOF / error);
     - the deflate output (after the 4-byte tail was cut) for every compressed message written.
   What is abstracted: Go ints are unbounded N here; the two places where the int64 arithmetic of nextFrame
   wraps (assembled + declared length >= 2^63, header + declared length >= 2^63) are modelled explicitly
   (too_large_wrap, EPanic).  The pooled buffers, the mutex, the executor and the asynchronous send queue are not
   modelled (C11, C14).  c.closed is set only by CloseAndClean, which the environment calls (close_and_clean);
   Conn.Close() only closes the underlying connection (cclosed). *)
From Coq Require Import List NArith Bool.
Import ListNotations.
Open Scope N_scope.

Notation byte := N (only parsing).
Notation bytes := (list N) (only parsing).

(* length as an N (= N.of_nat (length l), WsProofs.len_length; written this way because N.of_nat is slow once extracted) *)
Fixpoint len (l : bytes) : N := match l with [] => 0 | _ :: t => N.succ (len t) end.
(* n <= len l, walking at most n cells *)
Fixpoint has_len (l : bytes) (n : N) : bool :=
  match l with
  | [] => n =? 0
  | _ :: t => if n =? 0 then true else has_len t (N.pred n)
  end.
(* length l <= k, walking at most k+1 cells *)
Fixpoint le_len (l : bytes) (k : nat) : bool :=
  match l, k with
  | [], _ => true
  | _ :: _, O => false
  | _ :: t, S k' => le_len t k'
  end.
Definition nonempty (l : bytes) : bool := match l with [] => false | _ :: _ => true end.

(* ---------- big-endian integers, masking ---------- *)
Fixpoint be (k : nat) (n : N) : bytes :=
  match k with O => [] | S k' => be k' (n / 256) ++ [n mod 256] end.
Definition be_val (l : bytes) : N := fold_left (fun acc b => acc * 256 + b) l 0.

(* maskXOR: byte j of the payload is XORed with key[j mod 4]; i is the index into the key, kept in 0..3
   (the unrolled 64/8-byte loops of the implementation are tied to this by the differential run only) *)
Definition next_ki (i : nat) : nat := match i with S (S (S _)) => O | _ => S i end.
Fixpoint mask_from (i : nat) (key : bytes) (p : bytes) : bytes :=
  match p with
  | [] => []
  | b :: t => N.lxor b (nth i key 0) :: mask_from (next_ki i) key t
  end.

Definition b2n (b : bool) : N := if b then 1 else 0.
Definition LIM63 := 9223372036854775808.

(* ---------- frames on the wire (writeFrame) ---------- *)
Record frame := mkf { fin : bool; rsv1 : bool; opcode : N; masked : bool; key : bytes; payload : bytes }.

Definition encode_frame (f : frame) : bytes :=
  let n := len (payload f) in
  let b0 := opcode f + 64 * b2n (rsv1 f) + 128 * b2n (fin f) in
  let m := 128 * b2n (masked f) in
  let hdr :=
    if n <? 126 then [b0; m + n]
    else if n <=? 65535 then [b0; m + 126] ++ be 2 n
    else [b0; m + 127] ++ be 8 n in
  if masked f then hdr ++ key f ++ mask_from 0 (key f) (payload f)
  else hdr ++ payload f.

(* ---------- header decode (first half of nextFrame) ---------- *)
Record hdr := mkh { h_fin : bool; h_r1 : bool; h_r2 : bool; h_r3 : bool; h_op : N; h_mk : bool;
                    h_hl : nat (* 2, 4 or 10: header without the mask key *); h_n : N (* declared payload length *) }.

Inductive pk :=
| PNeed                (* fewer than two bytes *)
| PUnknown (op : N)    (* extended length bytes incomplete: bodyLen = -1 in the code *)
| PBad                 (* 64-bit length with the top bit set *)
| PKnown (h : hdr).

Definition peek (b : bytes) : pk :=
  match b with
  | b0 :: b1 :: t =>
      let len7 := b1 mod 128 in
      let mk := mkh (N.odd (b0 / 128)) (N.odd (b0 / 64)) (N.odd (b0 / 32)) (N.odd (b0 / 16)) (b0 mod 16) (N.odd (b1 / 128)) in
      if len7 =? 126 then
        match t with
        | l0 :: l1 :: _ => PKnown (mk 4%nat (be_val [l0; l1]))
        | _ => PUnknown (b0 mod 16)
        end
      else if len7 =? 127 then
        let l8 := firstn 8 t in
        if Nat.eqb (length l8) 8 then
          let v := be_val l8 in if LIM63 <=? v then PBad else PKnown (mk 10%nat v)
        else PUnknown (b0 mod 16)
      else PKnown (mk 2%nat len7)
  | _ => PNeed
  end.

(* total header length incl. the mask key *)
Definition hl_total (h : hdr) : N := N.of_nat (h_hl h) + (if h_mk h then 4 else 0).
Definition frame_total (h : hdr) : N := hl_total h + h_n h.

(* the (unmasked) payload of a complete frame; only called when frame_total h <= len b *)
Definition body_of (h : hdr) (b : bytes) : bytes :=
  let raw := firstn (N.to_nat (h_n h)) (skipn (N.to_nat (hl_total h)) b) in
  if h_mk h then mask_from 0 (firstn 4 (skipn (h_hl h) b)) raw else raw.

(* ---------- errors, validFrame ---------- *)
Inductive ferr :=
| EFrag         (* ErrInvalidFragmentMessage: stray continuation, 64-bit length with top bit, opcode 11..15 *)
| ETooLarge     (* ErrMessageTooLarge *)
| ECtlBig       (* ErrControlMessageTooBig *)
| ERsv          (* ErrReserveBitSet *)
| EReservedOp   (* ErrReservedMessageType *)
| ECtlFrag      (* ErrControlMessageFragmented *)
| ENested       (* ErrFragmentsShouldNotHaveBinaryOrTextMessage *)
| EPanic        (* a recovered run-time panic inside Parse: "websocket: parse error" *)
| EInflate      (* the decompressor reported an error *)
| ETooLong      (* nbhttp.ErrTooLong: ReadLimit *)
| EClosed       (* net.ErrClosed *)
| EWriteErr     (* the underlying connection refused the write *)
| EFuel.        (* model artefact: frame-loop fuel exhausted (proved unreachable from parse_call) *)

Definition is_data (op : N) : bool := op <? 3.
Definition is_control (op : N) : bool := (op =? 8) || (op =? 9) || (op =? 10).

Definition valid_frame (encomp : bool) (op : N) (fi r1 r2 r3 expect : bool) : option ferr :=
  if r1 && negb encomp then Some ERsv
  else if r2 || r3 then Some ERsv
  else if (2 <? op) && (op <? 8) then Some EReservedOp
  else if negb fi && negb (is_data op) then Some ECtlFrag
  else if expect && ((op =? 1) || (op =? 2)) then Some ENested
  else if negb expect && (op =? 0) then Some EFrag
  else None.

Definition valid_close_code (c : N) : bool :=
  if (c =? 1004) || (c =? 1005) || (c =? 1006) then false
  else if ((1000 <=? c) && (c <=? 1011)) || (c =? 1015) then true
  else (3000 <=? c) && (c <? 5000).

(* ---------- UTF-8 (RFC 3629; Go's utf8.Valid) ---------- *)
Definition inr (lo hi b : N) : bool := (lo <=? b) && (b <=? hi).
Definition cont (b : N) : bool := inr 128 191 b.

Fixpoint utf8_valid (l : bytes) : bool :=
  match l with
  | [] => true
  | b :: t =>
    if b <? 128 then utf8_valid t
    else if inr 194 223 b then
      match t with c1 :: t1 => cont c1 && utf8_valid t1 | _ => false end
    else if inr 224 239 b then
      match t with
      | c1 :: c2 :: t2 =>
          (if b =? 224 then inr 160 191 c1 else if b =? 237 then inr 128 159 c1 else cont c1)
          && cont c2 && utf8_valid t2
      | _ => false
      end
    else if inr 240 244 b then
      match t with
      | c1 :: c2 :: c3 :: t3 =>
          (if b =? 240 then inr 144 191 c1 else if b =? 244 then inr 128 143 c1 else cont c1)
          && cont c2 && cont c3 && utf8_valid t3
      | _ => false
      end
    else false
  end.

(* ---------- configuration, state, oracle, events ---------- *)
Record config := mkcfg {
  is_client : bool;           (* this endpoint masks what it writes *)
  msg_limit : N;              (* MessageLengthLimit; 0 = unlimited *)
  read_limit : N;             (* Engine.ReadLimit; 0 = unlimited *)
  enable_compression : bool;  (* RSV1 accepted on receive *)
  write_compress : bool;      (* enableWriteCompression *)
  frame_limit : N             (* Engine.MaxWebsocketFramePayloadSize, > 0 *)
}.

Record state := mkst {
  cache : bytes;              (* bytesCached (nil iff empty) *)
  message : option bytes;     (* message under assembly: None = nil pointer; Some is never empty *)
  msg_type : N;
  compress : bool;
  expecting : bool;           (* expectingFragments *)
  closed : bool;              (* c.closed: set by CloseAndClean only *)
  cclosed : bool              (* the underlying net.Conn was closed *)
}.

Definition init_state : state := mkst [] None 0 false false false false.

Definition set_cache (s : state) (c : bytes) := mkst c (message s) (msg_type s) (compress s) (expecting s) (closed s) (cclosed s).
Definition set_message (s : state) (m : option bytes) := mkst (cache s) m (msg_type s) (compress s) (expecting s) (closed s) (cclosed s).
Definition set_mt (s : state) (t : N) (c : bool) := mkst (cache s) (message s) t c (expecting s) (closed s) (cclosed s).
Definition set_expecting (s : state) (e : bool) := mkst (cache s) (message s) (msg_type s) (compress s) e (closed s) (cclosed s).
Definition set_cclosed (s : state) := mkst (cache s) (message s) (msg_type s) (compress s) (expecting s) (closed s) true.
Definition reset_msg (s : state) := mkst (cache s) (message s) 0 false false (closed s) (cclosed s).

(* what one Read of the decompressor returned *)
Inductive ritem := RChunk (bs : bytes) (* n, nil *) | REof (bs : bytes) (* n, io.EOF *) | RFail (bs : bytes) (* n, other error *).

Record oracle := mko {
  o_keys : list bytes;            (* mask keys, one per frame written in the client role *)
  o_infl : list (list ritem);     (* one reader script per compressed message completed *)
  o_defl : list (option bytes)    (* deflate output per compressed message written; None: the compressor failed *)
}.

Inductive event :=
| EvMsg (t : N) (p : bytes)             (* OnMessage *)
| EvPing (p : bytes)                    (* ping handler *)
| EvPong (p : bytes)                    (* pong handler *)
| EvClose (code : N) (reason : bytes)   (* close handler *)
| EvWrite (wire : bytes)                (* one successful conn.Write = one frame *)
| EvWriteFail                           (* conn.Write refused (underlying connection closed) *)
| EvConnClose.                          (* Close() of the underlying connection *)

(* ---------- sender: WriteMessage / writeFrame ---------- *)
Definition pop_key (o : oracle) : bytes * oracle :=
  match o_keys o with
  | k :: r => (k, mko r (o_infl o) (o_defl o))
  | [] => ([0; 0; 0; 0], o)
  end.

(* the frames of one message: (first?, fin?, chunk) *)
Fixpoint split_frames (fuel : nat) (k : nat) (l : bytes) : list bytes :=
  match fuel with
  | O => [l]
  | S f => if le_len l k then [l] else firstn k l :: split_frames f k (skipn k l)
  end.

Definition chunks_of (flimit : N) (data : bytes) : list bytes :=
  split_frames (length data) (N.to_nat (N.min flimit (len data))) data.

(* write the frames one after the other; stops at the first refused write *)
Fixpoint write_frames (cfg : config) (st : state) (o : oracle) (mt : N) (first : bool) (rsv : bool) (cs : list bytes)
  : oracle * list event * option ferr :=
  match cs with
  | [] => (o, [], None)
  | c :: rest =>
      if cclosed st then (o, [EvWriteFail], Some EWriteErr)
      else
        let '(k, o1) := if is_client cfg then pop_key o else ([], o) in
        let f := mkf (match rest with [] => true | _ => false end) rsv (if first then mt else 0) (is_client cfg) k c in
        let '(o2, evs, e) := write_frames cfg st o1 mt false false rest in
        (o2, EvWrite (encode_frame f) :: evs, e)
  end.

Definition pop_defl (o : oracle) : option (option bytes) * oracle :=
  match o_defl o with
  | d :: r => (Some d, mko (o_keys o) (o_infl o) r)
  | [] => (None, o)
  end.

Definition write_message (cfg : config) (st : state) (o : oracle) (mt : N) (data : bytes)
  : oracle * list event * option ferr :=
  if closed st then (o, [], Some EClosed)
  else if is_control mt && (125 <? len data) then (o, [], Some ECtlBig)
  else
    let want := write_compress cfg && ((mt =? 1) || (mt =? 2)) in
    let '(o1, data1, comp) :=
      if want then
        match pop_defl o with
        | (Some (Some z), o') => (o', (if nonempty z then z else data), true)
        | (Some None, o') => (o', data, false)
        | (None, o') => (o', data, false)
        end
      else (o, data, false) in
    (* control messages (at most 125 bytes) are never split *)
    write_frames cfg st o1 mt true comp (if is_control mt then [data1] else chunks_of (frame_limit cfg) data1).

(* ---------- receiver ---------- *)
Definition too_large (limit x : N) : bool := (0 <? limit) && (limit <? x).
(* isMessageTooLarge(ml + int(bodyLen)): the Go sum wraps to a negative int from 2^63 on *)
Definition too_large_wrap (limit x : N) : bool := if LIM63 <=? x then false else too_large limit x.
(* bodyLen = -1: ml - 1 > limit *)
Definition too_large_unknown (limit ml : N) : bool := (0 <? limit) && (limit + 1 <? ml).

Definition msg_len (st : state) : N := match message st with None => 0 | Some m => len m end.

Inductive nf := NFNeed | NFErr (e : ferr) | NFFrame (total : N) (h : hdr) (p : bytes).

Definition next_frame (cfg : config) (st : state) : nf :=
  match peek (cache st) with
  | PNeed => NFNeed
  | PBad => NFErr EFrag
  | PUnknown op =>
      if is_data op && too_large_unknown (msg_limit cfg) (msg_len st) then NFErr ETooLarge else NFNeed
  | PKnown h =>
      (* only the frames of a data message count against the message length limit *)
      if is_data (h_op h) && too_large_wrap (msg_limit cfg) (msg_len st + h_n h) then NFErr ETooLarge
      else if (125 <? h_n h) && is_control (h_op h) then NFErr ECtlBig
      else if LIM63 <=? frame_total h then NFErr EPanic      (* int64 overflow, slice bounds panic, recovered *)
      else if has_len (cache st) (frame_total h) then
        match valid_frame (enable_compression cfg) (h_op h) (h_fin h) (h_r1 h) (h_r2 h) (h_r3 h) (expecting st) with
        | Some e => NFErr e
        | None => NFFrame (frame_total h) h (body_of h (cache st))
        end
      else NFNeed
  end.

(* readAll over what the decompressor's Reads returned *)
Inductive rres := ROk (out : bytes) | RErr (e : ferr).
Fixpoint read_all (limit : N) (acc : bytes) (s : list ritem) : rres :=
  match s with
  | [] => RErr EInflate   (* no real reader produces an endless run of (n, nil) *)
  | RChunk bs :: s' => let acc' := acc ++ bs in if too_large limit (len acc') then RErr ETooLarge else read_all limit acc' s'
  | REof bs :: _ => let acc' := acc ++ bs in if too_large limit (len acc') then RErr ETooLarge else ROk acc'
  | RFail bs :: _ => let acc' := acc ++ bs in if too_large limit (len acc') then RErr ETooLarge else RErr EInflate
  end.

Definition pop_infl (o : oracle) : list ritem * oracle :=
  match o_infl o with
  | s :: r => (s, mko (o_keys o) r (o_defl o))
  | [] => ([], o)
  end.

Definition str_invalid_utf8 : bytes := [105; 110; 118; 97; 108; 105; 100; 32; 85; 84; 70; 45; 56; 32; 98; 121; 116; 101; 115].
Definition str_too_large : bytes :=
  [109; 101; 115; 115; 97; 103; 101; 32; 101; 120; 99; 101; 101; 100; 115; 32; 116; 104; 101; 32; 99; 111; 110; 102; 105; 103; 117; 114; 101; 100; 32; 108; 105; 109; 105; 116].
Definition str_ctl_big : bytes :=
  [119; 101; 98; 115; 111; 99; 107; 101; 116; 58; 32; 99; 111; 110; 116; 114; 111; 108; 32; 102; 114; 97; 109; 101; 32; 108; 101; 110; 103; 116; 104; 32; 62; 32; 49; 50; 53].

Definition conn_close (st : state) : state * list event := (set_cclosed st, [EvConnClose]).

(* write a close frame, then Close() *)
Definition fail_with (cfg : config) (st : state) (o : oracle) (body : bytes) : state * oracle * list event :=
  let '(o1, evs, _) := write_message cfg st o 8 body in
  let '(st1, evc) := conn_close st in
  (st1, o1, evs ++ evc).

(* handleWsMessage with the default handlers of NewUpgrader *)
Definition handle_ws_message (cfg : config) (st : state) (o : oracle) (mt : N) (p : bytes) : state * oracle * list event :=
  if mt =? 2 then (st, o, if closed st then [] else [EvMsg 2 p])
  else if mt =? 1 then
    if utf8_valid p then (st, o, if closed st then [] else [EvMsg 1 p])
    else fail_with cfg st o (be 2 1002 ++ str_invalid_utf8)
  else if mt =? 9 then
    let '(o1, evs, e) := write_message cfg st o 10 p in
    match e with
    | None => (st, o1, EvPing p :: evs)
    | Some _ => let '(st1, evc) := conn_close st in (st1, o1, EvPing p :: evs ++ evc)
    end
  else if mt =? 10 then (st, o, [EvPong p])
  else if mt =? 8 then
    match p with
    | [] =>
        let '(o1, evs, _) := write_message cfg st o 8 [] in
        let '(st1, evc) := conn_close st in (st1, o1, EvClose 1005 [] :: evs ++ evc)
    | [_] =>
        let '(o1, evs, _) := write_message cfg st o 8 (be 2 1002) in
        let '(st1, evc) := conn_close st in (st1, o1, EvClose 1002 [] :: evs ++ evc)
    | c0 :: c1 :: reason =>
        let code := be_val [c0; c1] in
        if negb (valid_close_code code) then fail_with cfg st o (be 2 1002)
        else if negb (utf8_valid reason) then fail_with cfg st o (be 2 1002 ++ str_invalid_utf8)
        else
          let '(o1, evs, _) := write_message cfg st o 8 (be 2 code ++ reason) in
          let '(st1, evc) := conn_close st in (st1, o1, EvClose code reason :: evs ++ evc)
    end
  else let '(st1, evc) := conn_close st in (st1, o, evc).

(* Parse's epilogue on an error *)
Definition finish_err (cfg : config) (st : state) (o : oracle) (e : ferr) : state * oracle * list event :=
  match e with
  | ETooLarge => let '(o1, evs, _) := write_message cfg st o 8 (be 2 1009 ++ str_too_large) in (st, o1, evs)
  | ECtlBig => let '(o1, evs, _) := write_message cfg st o 8 (be 2 1009 ++ str_ctl_big) in (st, o1, evs)
  | EPanic => (set_cache st [], o, [])
  | _ => (st, o, [])
  end.

Definition consume (st : state) (total : N) : state := set_cache st (skipn (N.to_nat total) (cache st)).

Inductive sres :=
| SStop (st : state) (o : oracle) (evs : list event) (e : option ferr)
| SCont (st : state) (o : oracle) (evs : list event).

Definition stop_err (cfg : config) (st : state) (o : oracle) (e : ferr) : sres :=
  let '(st1, o1, evs) := finish_err cfg st o e in SStop st1 o1 evs (Some e).

Definition dispatch (cfg : config) (st : state) (o : oracle) (mt : N) (p : bytes) : sres :=
  let '(st1, o1, evs) := handle_ws_message cfg st o mt p in SCont st1 o1 evs.

(* one iteration of Parse's frame loop *)
Definition step (cfg : config) (st : state) (o : oracle) : sres :=
  match next_frame cfg st with
  | NFNeed => SStop st o [] None
  | NFErr e => stop_err cfg st o e
  | NFFrame total h p =>
      if is_data (h_op h) then
        let st1 := if msg_type st =? 0 then set_mt st (h_op h) (h_r1 h) else st in
        let mt := msg_type st1 in
        let st2 := if nonempty p
                   then set_message st1 (Some (match message st1 with None => p | Some m => m ++ p end))
                   else st1 in
        if h_fin h then
          let m := message st2 in
          let st3 := set_message st2 None in
          if compress st3 then
            match m with
            | None => stop_err cfg st3 o EPanic      (* nil message dereferenced *)
            | Some mb =>
                let '(script, o1) := pop_infl o in
                match read_all (msg_limit cfg) [] script with
                | RErr e => stop_err cfg st3 o1 e
                | ROk out => dispatch cfg (consume (reset_msg st3) total) o1 mt out
                end
            end
          else dispatch cfg (consume (reset_msg st3) total) o mt (match m with None => [] | Some mb => mb end)
        else SCont (consume (set_expecting st2 true) total) o []
      else if is_control (h_op h) then dispatch cfg (consume st total) o (h_op h) p
      else stop_err cfg st o EFrag
  end.

Fixpoint frame_loop (fuel : nat) (cfg : config) (st : state) (o : oracle) : state * oracle * list event * option ferr :=
  match fuel with
  | O => (st, o, [], Some EFuel)
  | S fuel' =>
      if closed st then (st, o, [], None)
      else
        match step cfg st o with
        | SStop st1 o1 evs e => (st1, o1, evs, e)
        | SCont st1 o1 evs =>
            let '(st2, o2, evs2, e) := frame_loop fuel' cfg st1 o1 in (st2, o2, evs ++ evs2, e)
        end
  end.

(* Conn.Parse *)
Definition parse_call (cfg : config) (st : state) (data : bytes) (o : oracle) : state * oracle * list event * option ferr :=
  match data with
  | [] => (st, o, [], None)
  | _ :: _ =>
      if closed st then (st, o, [], Some EClosed)
      else if (0 <? read_limit cfg) && nonempty (cache st) && (read_limit cfg <? len (cache st) + len data)
      then (st, o, [], Some ETooLong)
      else
        let st1 := set_cache st (cache st ++ data) in
        frame_loop (S (length (cache st1))) cfg st1 o
  end.

(* Conn.CloseAndClean (called by the engine after the connection was closed or Parse failed) *)
Definition close_and_clean (st : state) : state * list event :=
  if closed st then (st, [])
  else (mkst [] None (msg_type st) (compress st) (expecting st) true true, [EvConnClose]).

(* ---------- programs for the differential run ---------- *)
Inductive op := OpParse (data : bytes) | OpWrite (mt : N) (data : bytes) | OpCloseClean.

Record opres := mkres { r_events : list event; r_err : option ferr; r_state : state }.

Fixpoint run_ops (cfg : config) (st : state) (o : oracle) (ops : list op) : list opres :=
  match ops with
  | [] => []
  | OpParse d :: r =>
      let '(st1, o1, evs, e) := parse_call cfg st d o in mkres evs e st1 :: run_ops cfg st1 o1 r
  | OpWrite mt d :: r =>
      let '(o1, evs, e) := write_message cfg st o mt d in mkres evs e st :: run_ops cfg st o1 r
  | OpCloseClean :: r =>
      let '(st1, evs) := close_and_clean st in mkres evs None st1 :: run_ops cfg st1 o r
  end.
