(* C13: what the default handlers answer, and that an offending frame delivers nothing. *)
From Coq Require Import List NArith ZArith Bool Lia ZifyN ZifyBool Arith.
Import ListNotations.
Require Import WsModel WsBasics WsLimits WsLimits2.
Open Scope N_scope.
Ltac Zify.zify_post_hook ::= Z.div_mod_to_equations.

(* one unfragmented control frame of at most 125 bytes on a writable connection *)
Lemma write_control cfg st o op body :
  is_control op = true -> closed st = false -> cclosed st = false -> len body <= 125 ->
  exists k o', write_message cfg st o op body = (o', [EvWrite (encode_frame (mkf true false op (is_client cfg) k body))], None)
               /\ o_infl o' = o_infl o /\ o_defl o' = o_defl o.
Proof.
  intros Hc Hcl Hcc Hl. unfold write_message. rewrite Hcl, Hc.
  replace (125 <? len body) with false by (symmetry; apply N.ltb_ge; exact Hl). cbn [andb].
  assert (E : write_compress cfg && ((op =? 1) || (op =? 2)) = false).
  { unfold is_control in Hc. destruct (N.eqb_spec op 1); [subst; discriminate|]. destruct (N.eqb_spec op 2); [subst; discriminate|].
    apply andb_false_r. }
  rewrite E. cbn [write_frames]. rewrite Hcc.
  destruct (is_client cfg).
  - unfold pop_key. destruct (o_keys o) as [|k r]; eexists; eexists; split; reflexivity || (cbn; auto).
  - eexists; eexists; split; [reflexivity|auto].
Qed.

(* a ping is answered by a pong that carries the same payload, and nothing else happens *)
Lemma ping_pong cfg st o p :
  closed st = false -> cclosed st = false -> len p <= 125 ->
  exists k o', handle_ws_message cfg st o 9 p =
    (st, o', [EvPing p; EvWrite (encode_frame (mkf true false 10 (is_client cfg) k p))]).
Proof.
  intros Hcl Hcc Hl. unfold handle_ws_message. cbn [N.eqb Pos.eqb].
  destruct (write_control cfg st o 10 p eq_refl Hcl Hcc Hl) as (k & o' & W & _). rewrite W. eauto.
Qed.

(* a close frame with a legal code and a UTF-8 reason is handed to the close handler, echoed, and the connection closed *)
Lemma close_reply cfg st o c0 c1 reason :
  closed st = false -> cclosed st = false -> len reason <= 123 ->
  valid_close_code (be_val [c0; c1]) = true -> utf8_valid reason = true -> c0 < 256 -> c1 < 256 ->
  exists k o', handle_ws_message cfg st o 8 (c0 :: c1 :: reason) =
    (set_cclosed st, o',
     [EvClose (be_val [c0; c1]) reason;
      EvWrite (encode_frame (mkf true false 8 (is_client cfg) k (c0 :: c1 :: reason))); EvConnClose]).
Proof.
  intros Hcl Hcc Hl Hv Hu H0 H1. unfold handle_ws_message. cbn [N.eqb Pos.eqb]. rewrite Hv, Hu. cbn [negb].
  assert (Hbv : be_val [c0; c1] = c0 * 256 + c1) by (unfold be_val; cbn [fold_left]; lia).
  assert (Hbe : be 2 (be_val [c0; c1]) = [c0; c1]).
  { rewrite Hbv. change (be 2 (c0 * 256 + c1)) with [(c0 * 256 + c1) / 256 mod 256; (c0 * 256 + c1) mod 256].
    f_equal; [|f_equal]; lia. }
  rewrite Hbe. cbn [app].
  assert (Hl' : len (c0 :: c1 :: reason) <= 125) by (rewrite !len_cons; lia).
  destruct (write_control cfg st o 8 (c0 :: c1 :: reason) eq_refl Hcl Hcc Hl') as (k & o' & W & _). rewrite W.
  unfold conn_close. cbn [app]. eauto.
Qed.

Lemma close_empty_reply cfg st o :
  closed st = false -> cclosed st = false ->
  exists k o', handle_ws_message cfg st o 8 [] =
    (set_cclosed st, o', [EvClose 1005 []; EvWrite (encode_frame (mkf true false 8 (is_client cfg) k [])); EvConnClose]).
Proof.
  intros Hcl Hcc. unfold handle_ws_message. cbn [N.eqb Pos.eqb].
  destruct (write_control cfg st o 8 [] eq_refl Hcl Hcc ltac:(cbn; lia)) as (k & o' & W & _). rewrite W.
  unfold conn_close. cbn [app]. eauto.
Qed.

(* an illegal close code, a non-UTF-8 close reason, a non-UTF-8 text message: nothing reaches a handler,
   a close frame with code 1002 is written and the connection closed *)
Definition protocol_error_reply (cfg : config) (evs : list event) : Prop :=
  exists k r, evs = [EvWrite (encode_frame (mkf true false 8 (is_client cfg) k (be 2 1002 ++ r))); EvConnClose].

Lemma fail_with_1002 cfg st o r :
  closed st = false -> cclosed st = false -> len (be 2 1002 ++ r) <= 125 ->
  exists o', fst (fail_with cfg st o (be 2 1002 ++ r)) = (set_cclosed st, o') /\
             protocol_error_reply cfg (snd (fail_with cfg st o (be 2 1002 ++ r))).
Proof.
  intros Hcl Hcc Hl. unfold fail_with.
  destruct (write_control cfg st o 8 (be 2 1002 ++ r) eq_refl Hcl Hcc Hl) as (k & o' & W & _). rewrite W.
  unfold conn_close. cbn. exists o'. split; [reflexivity|]. exists k, r. reflexivity.
Qed.

Lemma bad_text_refused cfg st o p :
  closed st = false -> cclosed st = false -> utf8_valid p = false ->
  protocol_error_reply cfg (snd (handle_ws_message cfg st o 1 p)).
Proof.
  intros Hcl Hcc Hu. unfold handle_ws_message. cbn [N.eqb Pos.eqb]. rewrite Hu.
  destruct (fail_with_1002 cfg st o str_invalid_utf8 Hcl Hcc ltac:(vm_compute; discriminate)) as (o' & _ & H). exact H.
Qed.

Lemma bad_close_code_refused cfg st o c0 c1 reason :
  closed st = false -> cclosed st = false -> valid_close_code (be_val [c0; c1]) = false ->
  protocol_error_reply cfg (snd (handle_ws_message cfg st o 8 (c0 :: c1 :: reason))).
Proof.
  intros Hcl Hcc Hv. unfold handle_ws_message. cbn [N.eqb Pos.eqb]. rewrite Hv. cbn [negb].
  destruct (fail_with_1002 cfg st o [] Hcl Hcc ltac:(vm_compute; discriminate)) as (o' & _ & H).
  rewrite app_nil_r in H. exact H.
Qed.

Lemma bad_close_reason_refused cfg st o c0 c1 reason :
  closed st = false -> cclosed st = false -> valid_close_code (be_val [c0; c1]) = true -> utf8_valid reason = false ->
  protocol_error_reply cfg (snd (handle_ws_message cfg st o 8 (c0 :: c1 :: reason))).
Proof.
  intros Hcl Hcc Hv Hu. unfold handle_ws_message. cbn [N.eqb Pos.eqb]. rewrite Hv, Hu. cbn [negb].
  destruct (fail_with_1002 cfg st o str_invalid_utf8 Hcl Hcc ltac:(vm_compute; discriminate)) as (o' & _ & H). exact H.
Qed.

(* the frame that makes Parse fail delivers nothing and ends the call: whatever was handed to the handlers by this
   call came from frames strictly before it *)
Lemma step_error_delivers_nothing cfg st o st' o' evs e :
  step cfg st o = SStop st' o' evs (Some e) -> Forall is_wire_ev evs.
Proof.
  assert (G : forall s oo ee, stop_err cfg s oo ee = SStop st' o' evs (Some e) -> Forall is_wire_ev evs).
  { intros s oo ee H. unfold stop_err in H. destruct (finish_err cfg s oo ee) as [[s1 o1] ev1] eqn:E.
    injection H as <- <- <- _. now apply finish_err_core in E as (_ & _ & _ & _ & Hw). }
  unfold step. destruct (next_frame cfg st) as [|e0|total h p]; [discriminate|apply G|].
  destruct (is_data (h_op h)).
  - destruct (h_fin h); [|discriminate].
    match goal with |- context [compress ?s] => destruct (compress s) end.
    + match goal with |- context [message ?s] => destruct (message s) end.
      * destruct (pop_infl o) as [script o1]. destruct (read_all _ _ _); [|apply G].
        unfold dispatch. destruct (handle_ws_message _ _ _ _ _) as [[? ?] ?]. discriminate.
      * apply G.
    + unfold dispatch. destruct (handle_ws_message _ _ _ _ _) as [[? ?] ?]. discriminate.
  - destruct (is_control (h_op h)); [|apply G].
    unfold dispatch. destruct (handle_ws_message _ _ _ _ _) as [[? ?] ?]. discriminate.
Qed.

(* Parse ends with the failing iteration: everything the call handed to the handlers came from the frames before
   the offending one, and the offending frame itself only produces wire events (a close frame at most) *)
Lemma frame_loop_error_tail cfg fuel : forall st o st' o' evs e,
  frame_loop fuel cfg st o = (st', o', evs, Some e) -> e <> EFuel ->
  exists (before after : list event) (st1 : state) (o1 : oracle),
    evs = before ++ after /\ step cfg st1 o1 = SStop st' o' after (Some e) /\ Forall is_wire_ev after.
Proof.
  induction fuel as [|fuel IH]; intros st o st' o' evs e H Hne; cbn [frame_loop] in H.
  - injection H as _ _ _ <-. congruence.
  - destruct (closed st); [discriminate|].
    destruct (step cfg st o) as [st1 o1 evs1 e1|st1 o1 evs1] eqn:S.
    + injection H as <- <- <- ->. exists [], evs1, st, o. split; [reflexivity|]. split; [exact S|].
      eapply step_error_delivers_nothing; eauto.
    + destruct (frame_loop fuel cfg st1 o1) as [[[st2 o2] evs2] e2] eqn:L. injection H as <- <- <- ->.
      destruct (IH _ _ _ _ _ _ L Hne) as (b & a & st3 & o3 & -> & S3 & Hw).
      exists (evs1 ++ b), a, st3, o3. split; [now rewrite app_assoc|]. split; [exact S3|exact Hw].
Qed.
