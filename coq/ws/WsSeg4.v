(* C12: segmentation independence in both directions for a receiver WITH a message length limit (the state invariant
   of C15 replaces "no limit"). *)
From Coq Require Import List NArith ZArith Bool Lia ZifyN ZifyBool Arith.
Import ListNotations.
Require Import WsModel WsBasics WsLimits WsLimits2 WsSeg WsSeg2 WsSeg3.
Open Scope N_scope.

Lemma inv_tu cfg st : inv cfg st -> too_large_unknown (msg_limit cfg) (msg_len st) = false.
Proof.
  intros [[H|H] _]; unfold too_large_unknown; [rewrite H; reflexivity|].
  destruct (0 <? msg_limit cfg); [|reflexivity]. cbn. apply N.ltb_ge. lia.
Qed.

Lemma next_frame_err_ext_tu cfg st b e :
  too_large_unknown (msg_limit cfg) (msg_len st) = false ->
  next_frame cfg st = NFErr e -> next_frame cfg (ext st b) = NFErr e.
Proof.
  intros Htu. unfold next_frame. change (cache (ext st b)) with (cache st ++ b).
  change (msg_len (ext st b)) with (msg_len st). change (expecting (ext st b)) with (expecting st).
  destruct (peek (cache st)) as [|op0| |h] eqn:Pk.
  - discriminate.
  - rewrite Htu, andb_false_r. discriminate.
  - now rewrite (peek_app_bad _ b Pk).
  - rewrite (peek_app _ b h Pk).
    destruct (is_data (h_op h) && too_large_wrap _ _); [auto|].
    destruct ((125 <? h_n h) && is_control (h_op h)); [auto|].
    destruct (LIM63 <=? frame_total h); [auto|].
    rewrite !has_len_spec, len_app.
    destruct (frame_total h <=? len (cache st)) eqn:E; [|discriminate].
    apply N.leb_le in E.
    replace (frame_total h <=? len (cache st) + len b) with true by (symmetry; apply N.leb_le; lia).
    destruct (valid_frame _ _ _ _ _ _ _); [auto|discriminate].
Qed.

Lemma step_ext_err_tu cfg st b o st1 o1 evs e :
  too_large_unknown (msg_limit cfg) (msg_len st) = false -> step cfg st o = SStop st1 o1 evs (Some e) ->
  exists st2, step cfg (ext st b) o = SStop st2 o1 evs (Some e).
Proof.
  intros Htu. unfold step. destruct (next_frame cfg st) as [|e0|t h p] eqn:NF.
  - discriminate.
  - rewrite (next_frame_err_ext_tu cfg st b e0 Htu NF). apply stop_err_ext.
  - rewrite (next_frame_ext cfg st b t h p NF).
    change (msg_type (ext st b)) with (msg_type st).
    destruct (is_data (h_op h)).
    + set (st1' := if msg_type st =? 0 then set_mt st (h_op h) (h_r1 h) else st).
      assert (E1 : (if msg_type st =? 0 then set_mt (ext st b) (h_op h) (h_r1 h) else ext st b) = ext st1' b)
        by (unfold st1'; destruct (msg_type st =? 0); reflexivity).
      rewrite E1. change (msg_type (ext st1' b)) with (msg_type st1'). change (message (ext st1' b)) with (message st1').
      set (st2 := if nonempty p then set_message st1' _ else st1').
      assert (E2 : (if nonempty p then set_message (ext st1' b) (Some match message st1' with None => p | Some m => m ++ p end)
                    else ext st1' b) = ext st2 b) by (unfold st2; destruct (nonempty p); reflexivity).
      rewrite E2.
      destruct (h_fin h); [|discriminate].
      change (message (ext st2 b)) with (message st2).
      change (compress (set_message (ext st2 b) None)) with (compress (set_message st2 None)).
      change (set_message (ext st2 b) None) with (ext (set_message st2 None) b).
      destruct (compress (set_message st2 None)).
      * destruct (message st2).
        -- destruct (pop_infl o) as [script o2]. destruct (read_all _ _ _) as [out|e1].
           ++ unfold dispatch. destruct (handle_ws_message cfg (consume _ _) _ _ _) as [[? ?] ?]. discriminate.
           ++ apply stop_err_ext.
        -- apply stop_err_ext.
      * unfold dispatch. destruct (handle_ws_message cfg (consume _ _) _ _ _) as [[? ?] ?]. discriminate.
    + destruct (is_control (h_op h)).
      * unfold dispatch. destruct (handle_ws_message cfg (consume _ _) _ _ _) as [[? ?] ?]. discriminate.
      * apply stop_err_ext.
Qed.

Lemma loop_ext_err_inv cfg b : msg_limit cfg < LIM62 -> forall f1 st o st1 o1 evs1 e,
  frame_loop f1 cfg st o = (st1, o1, evs1, Some e) -> e <> EFuel -> closed st = false ->
  inv cfg st -> len (cache st) < LIM62 ->
  forall k, exists st2, frame_loop (f1 + k) cfg (ext st b) o = (st2, o1, evs1, Some e).
Proof.
  intros HL. induction f1 as [|f1 IH]; intros st o st1 o1 evs1 e H Hne Hcl Hi Hc k; cbn [frame_loop] in H.
  - injection H as _ _ _ <-. congruence.
  - rewrite Hcl in H. pose proof (step_ok cfg st o HL Hc Hi) as OK.
    destruct (step cfg st o) as [st' o' evs' e'|st' o' evs'] eqn:S.
    + injection H as <- <- <- ->.
      destruct (step_ext_err_tu cfg st b o st' o' evs' e (inv_tu cfg st Hi) S) as [st2 S2].
      exists st2. cbn [plus frame_loop]. change (closed (ext st b)) with (closed st). now rewrite Hcl, S2.
    + destruct (frame_loop f1 cfg st' o') as [[[s2 o2] evs2] e2] eqn:L. injection H as <- <- <- ->.
      destruct OK as (Hi' & K' & Hc' & _).
      destruct (IH st' o' s2 o2 evs2 e L Hne ltac:(congruence) Hi' ltac:(lia) k) as [st2 L2].
      exists st2. cbn [plus frame_loop]. change (closed (ext st b)) with (closed st).
      now rewrite Hcl, (step_ext cfg st b o st' o' evs' S), L2.
Qed.

Lemma parse_call_err_ext_inv cfg st a b o st1 o1 evs1 e :
  msg_limit cfg < LIM62 -> read_limit cfg = 0 -> inv cfg st -> len (cache st) + len a < LIM62 ->
  parse_call cfg st a o = (st1, o1, evs1, Some e) ->
  exists st2, parse_call cfg st (a ++ b) o = (st2, o1, evs1, Some e).
Proof.
  intros HL HR Hi Hc H.
  assert (Hne : e <> EFuel).
  { pose proof (parse_call_fuel cfg st a o) as F. rewrite H in F. cbn in F. congruence. }
  unfold parse_call in *. destruct a as [|a0 at']; [discriminate|]. cbn [app].
  destruct (closed st) eqn:Hcl. { injection H as <- <- <- <-. eauto. }
  rewrite HR in *. cbn [N.ltb N.compare andb] in *.
  destruct (loop_ext_err_inv cfg b HL _ _ _ _ _ _ _ H Hne Hcl) with (k := S (length b)) as [st2 L].
  { exact Hi. }
  { cbn [set_cache cache]. rewrite len_app. exact Hc. }
  exists st2. rewrite <- L.
  replace (set_cache st (cache st ++ a0 :: at' ++ b)) with (ext (set_cache st (cache st ++ a0 :: at')) b).
  2:{ unfold ext. cbn [set_cache cache]. rewrite <- app_assoc. reflexivity. }
  apply frame_loop_any_fuel; cbn [ext set_cache cache]; rewrite ?app_length; cbn [length]; rewrite ?app_length; cbn [length]; lia.
Qed.

(* segmentation independence with a message length limit *)
Lemma feed_equiv_inv cfg : msg_limit cfg < LIM62 -> read_limit cfg = 0 -> forall segs st o st' o' evs e,
  inv cfg st -> len (cache st) + len (concat segs) < LIM62 ->
  feed cfg st o segs = (st', o', evs, e) ->
  exists st2, parse_call cfg st (concat segs) o = (st2, o', evs, e) /\ (e = None -> st2 = st').
Proof.
  intros HL HR. induction segs as [|s r IH]; intros st o st' o' evs e Hi Hc H; cbn [feed concat] in *.
  - injection H as <- <- <- <-. exists st. split; [reflexivity|auto].
  - rewrite len_app in Hc.
    destruct (parse_call cfg st s o) as [[[st1 o1] evs1] [e1|]] eqn:P.
    + injection H as <- <- <- <-.
      destruct (parse_call_err_ext_inv cfg st s (concat r) o st1 o1 evs1 e1 HL HR Hi ltac:(lia) P) as [st2 E].
      exists st2. split; [exact E|discriminate].
    + destruct (feed cfg st1 o1 r) as [[[s2 o2] evs2] e2] eqn:F. injection H as <- <- <- <-.
      destruct (parse_call_ok cfg st s o st1 o1 evs1 None HL ltac:(lia) Hi P) as (Hi1 & _ & Hc1 & _).
      destruct (IH st1 o1 s2 o2 evs2 e2 Hi1 ltac:(lia) F) as (st2 & E & Hs).
      exists st2. split; [|exact Hs].
      rewrite (parse_call_split cfg st s (concat r) o st1 o1 evs1 HR P), E. reflexivity.
Qed.
